#!/usr/bin/env python3
"""Regenerates /verif/MANIFEST.json from the table below (single source of truth)."""
import json
import os

VERIF = os.path.dirname(os.path.dirname(os.path.abspath(__file__)))

# id -> (level category, level text, level note, technique, design ref)
CHECKS = {}
NOT_APPLICABLE = {}


def chk(pid, text, note, technique, category="other"):
    CHECKS[pid] = (category, text, note, technique)


def na(pid, reason):
    NOT_APPLICABLE[pid] = reason


chk(
    "C04",
    "Static decision over the type-checked MIR: binding-power relations extracted from Token::lbp, projection "
    "threshold, Pratt-loop shape, provenance of the power passed at every operand-parse call site, and the Ast "
    "node built by every nud/led/parse_* arm. This is the whole mechanism the property rests on; the remaining step "
    "(table + loop discipline imply the documented parse of every token sequence) is the standard Pratt argument.",
    "Trusted: rustc MIR construction; the Pratt-parser correctness argument; the documented precedence chain as "
    "transcribed in vlib/props/c04.py.",
    "MIR table extraction + provenance (origin) analysis + edge dominance over rustc_private facts",
)

chk(
    "C13",
    "Effect analysis over everything reachable from compile/search/clone/conversion: statics and thread-local inventory, "
    "interior-mutability scan of every ADT field (unknown type constructors fail closed), fresh per-search Context that is "
    "stored nowhere, Context.offset write-only on the value path, no unsafe and no Rc/Arc mutation APIs, no ambient "
    "nondeterminism (clock/env/fs/net/thread/rand, hash iteration, pointer-to-integer), derived Clone and triple-preserving "
    "constructors. An alarm means purity can no longer be established from the shape of the code (sound direction).",
    "Trusted: determinism of std/serde/serde_json callees; purity of user-supplied functions; Rust aliasing rules.",
    "effect / who-may-call / who-may-read analysis on MIR + ADT tables (rustc_private facts)",
)
chk(
    "C16",
    "Send + Sync of all public value types is proved by rustc's trait solver on witness programs generated from the sync "
    "fact file (positive witness under feature sync; E0277 negative twins under default features and an Rc control under "
    "sync). Structural rules show the guarantee is not forged (no unsafe anywhere, no explicit Send/Sync impl), that the "
    "C13 purity/immutability verdict also holds for the sync build, that every MIR body of the sync build equals its "
    "default twin modulo Rc<->Arc, and that the default runtime is initialised through lazy_static/std::sync::Once. The "
    "step from these facts to 'every schedule yields the sequential results' is Rust's data-race-freedom guarantee.",
    "Trusted base: rustc trait solver and auto traits, std (Arc, Once), lazy_static, Rust's memory model for safe code.",
    "type-level witnesses (compile-pass / E0277 compile-fail twins) + effect analysis + cross-configuration MIR comparison",
    category="proof",
)
chk(
    "C17",
    "All four feature sets are compiled by the real compiler and compared body by body (MIR statements, terminators, "
    "unresolved callees + generic arguments, local types) modulo Arc->Rc; feature conditions are confined to lib.rs; "
    "re-routed call sites are enumerated; each of the 22 specialised conversions is paired with the generic serde path "
    "(same Variable kind, same-width cast-free conversion of the argument); manifest features enable nothing.",
    "Trusted: serde's primitive Serialize impls and serde_json::Value's Serialize impl follow their documentation; "
    "NaN/inf inputs are outside the quantifier.",
    "cross-configuration MIR comparison + provenance pairing table + lexical cfg confinement",
)

chk(
    "C06",
    "The signature contract is a decision table plus dominance facts, both read off the type-checked program: the 26 "
    "registered (name, type) pairs and the Signature term each type builds are extracted from MIR and compared with the "
    "specification table; validate(self.signature, args, ctx)? dominates every other call and Ok result in all 27 "
    "evaluate impls that own a Signature; validate_arity is walked under all 6 orderings; is_valid and the Variable "
    "accessors/predicates under all value kinds (exhaustive finite tables); per-position validation, InvalidType payload, "
    "who-may-construct each RuntimeError kind, per-element type tests of the by-functions, the unknown-function branch and "
    "the result kind of every builtin are decided structurally.",
    "Trusted: the specification table transcribed in vlib/props/c06.py; std Option/Iterator::all/any semantics.",
    "MIR table extraction + decision-tree walking over finite orderings + dominance + who-may-construct + return-tag analysis",
)

chk(
    "C07",
    "Decision-tree equivalence with the oracle the property names (CPython's slice index adjustment + stepping loop): every "
    "path of adjust_slice_endpoint and of the loop-free prefix of variable::slice is enumerated from MIR as (comparisons "
    "of affine forms, affine leaf) and compared with the reference tree on a grid hitting every ordering cell (complete "
    "for this class of piecewise-affine trees); stepping loops, in-range arithmetic on every path, step==0 / non-array "
    "guards, parse_index slot handling and index / negative-index clamps are decided structurally.",
    "Trusted: the transcription of PySlice_AdjustIndices; arrays shorter than 2^31 elements.",
    "MIR path enumeration with affine normalisation + finite-ordering comparison with a reference tree + dominance",
)

chk(
    "C05",
    "Default-deny inventory over all code reachable from compile/search/conversion: every MIR Assert, panicking call, "
    "Index::index call and deny-listed std API must be discharged by a proof rule whose side conditions are dominance / "
    "provenance facts checked on the CFG (validated-argument index, constant index, guarded counter, non-empty and len>=k "
    "guards, arity-equal index, iteration counter, dead arm by validated kind, token-range type invariant, slice routine = "
    "reference tree); every CFG cycle must contain a progress construct; every recursive call-graph SCC must be bounded. "
    "Recursion over input nesting (parser, evaluator, syntax-tree traversals) has no depth guard: recorded as known "
    "findings with reproducing inputs.",
    "Trusted: std/serde callees outside the deny-list do not panic; rustc emits Asserts for checked operations; JSON "
    "nesting is bounded by serde_json; allocation failure and time complexity are out of scope.",
    "panic-site inventory with proof-rule discharge (dominance, provenance, interval and char-class dataflow) + loop-progress and call-graph SCC rules",
)

chk(
    "C03",
    "Partial: language equality between the hand-written parser and the ABNF over all strings is not decided. Decided "
    "from MIR: comma-separator discipline on every feasible path between element parses (token-level path enumeration), "
    "rejected trailing separators, non-empty multi-selects, closing-delimiter / ':' / Eof dominance for every Ok result, "
    "grammar-derived accept sets of nud / led / parse_dot / bracket specifier / bracket contents, and the lexical tables by "
    "character-class dataflow (character -> action map, identifier classes, whitespace set, error class, lone '=', fallible "
    "32-bit number parse, '-' rule, unterminated delimiters, invalid JSON literals).",
    "Trusted: the token-level FIRST/FOLLOW sets transcribed from the ABNF; that locally correct routines compose to the "
    "grammar (standard recursive-descent argument).",
    "token-level CFG path enumeration with lookahead facts + dominance + dispatch-table extraction + character-class dataflow",
)

chk(
    "C01",
    "Partial: conformance over all programs x documents is not decided. Decided by provenance analysis of every arm of "
    "interpreter::interpret against a skeleton table transcribed from the specification (what each arm returns, "
    "short-circuit, null-dropping projection, one-level flatten, multi-select null handling and unconditional collection, "
    "compare -> null/Bool mapping), plus exhaustive walks of the leaf tables (is_truthy incl. 0-is-truthy, get_field, "
    "accessors, get_type) under the 7 value kinds, the ascending-key (BTreeMap) representation, and the rules of the code the "
    "core forms rest on (operator gate, equality and value-order tables of Variable, slice routine, operand binding powers).",
    "Trusted: the skeleton table; composition of arms into whole-expression semantics (structural induction, not decided).",
    "per-arm provenance analysis + dominance (short-circuit / null filter) + exhaustive leaf decision-tree walks",
)
chk(
    "C11",
    "The context-flow table of the evaluator (for each node kind: which sub-expression is evaluated against which current "
    "node) is extracted by provenance analysis of interpreter::interpret and must equal the specified table for all 18 node "
    "kinds; the same context is threaded through; only search and the four expression-reference builtins may call the "
    "evaluator; pipe and dot both build Subexpr(left, right) and a parenthesised expression yields the inner node; the "
    "'depends on nothing else' clause is the C13 effect analysis; the per-arm composition rows, the slice routine and the "
    "truthiness table the truth-table forms denote through are run on the same facts.",
    "Trusted: structural induction from per-arm composition to the algebraic laws.",
    "provenance (origin) analysis of the evaluator's recursive call sites + who-may-call + effect analysis",
)

chk(
    "C10",
    "Partial: decided are the operator gate (Variable::compare walked exhaustively under the 24 combinations of operand "
    "number-ness x comparator: ordering yields None unless both are numbers, each comparator applies its own operator to "
    "(left, right)), the None->null / Some(b)->Bool(b) mapping in the evaluator, '==' as type-gated same-kind payload "
    "equality with '!=' its negation (only `eq` is defined), and confinement of the internal total order (every call whose "
    "instantiated obligations put Ord/PartialOrd on a Variable type is in an allowed body). Not decided: the arithmetic of "
    "float_eq (reflexivity / trichotomy for numbers).",
    "Trusted: std equality of Vec/BTreeMap/String/bool; float_eq's tolerance arithmetic.",
    "exhaustive decision-tree walks + provenance + who-may-call via instantiated trait obligations",
)
chk(
    "C15",
    "Partial: the history clause is reduced to HashMap's contract by showing structurally that the registry is nothing but a "
    "map keyed by the given name (insert / remove / get with the unmodified key, empty when fresh, touched by nothing else, "
    "builtins = 26 plain registrations); runtime flow compile -> Expression -> Context -> lookup, the call protocol of the "
    "Function arm (arguments evaluated once each, in order, before the lookup; same vector and context passed on; "
    "UnknownFunction on a miss; Expref unevaluated) and custom-function validation (arity decision, the validator of every "
    "position incl. the guard that chooses between inputs[k] and the variadic type walked with positions around inputs.len(), "
    "the kind predicates' table per kind of value) are dominance / provenance / decision-walk facts.",
    "Trusted: HashMap insert/remove/get semantics.",
    "provenance analysis + who-may-touch-field + dominance over rustc_private facts",
)

chk(
    "C12",
    "Partial: decided are error classification (every lexer/parser error is new(self.expr, position, Parse); every error "
    "under the evaluator is from_ctx(ctx, Runtime) or a provably dead internal conversion error — live ones are reported and "
    "two are known findings), the offset typestate of the evaluator (store after argument evaluation, save/restore around "
    "the invocation so nested calls cannot leave a stale offset, store before InvalidSlice, who-may-write), byte-offset "
    "provenance of every token / Ast / context offset (char_indices indices, expr.len() or 0) and the byte-vs-character "
    "unit discipline of JmespathError::new (prefix delimited by byte index, newline/column bookkeeping), the structure of the "
    "rendering (the caret on its own line under the offending line, exactly once, message parts in order) and that the text "
    "an error is located in is the text the parser was given (compile / Expression::new / Clone keep the (text, tree, runtime) "
    "triple untouched). Not decided: the wording of the messages.",
    "Trusted: Number::as_f64 is total without arbitrary_precision; conversion errors of non-JSON input are out of scope.",
    "who-may-construct + provenance + offset typestate by dominance / post-dominance + unit (bytes vs chars) and finiteness qualifiers",
)

chk(
    "C02",
    "Partial: the numeric / textual values computed by the builtins are run-time value semantics and are not decided. Decided "
    "per builtin from the provenance of its results and its call sites: stable ascending sorts (and no unstable sort "
    "reachable), the order used (String::cmp / partial_cmp, self first), expression references applied per element and paired "
    "with that element, extreme-element selection discipline of max_by/min_by/max/min, right-biased merge, pairwise "
    "keys/values, length/reverse by code points, avg's empty guard and sum/length quotient, map's unconditional push, "
    "not_null's first non-null, argument order of the string predicates and join, to_array/to_string/to_number/type case "
    "tables, the declared result kinds (return-tag analysis), and the tables the builtins rest on (Variable's equality and "
    "value order, the Deserialize visitor rows behind to_number's parse).",
    "Trusted: documented behaviour of the std operations named in the rows; numeric results and JSON encoding of to_string.",
    "per-builtin provenance patterns + dominance + who-may-call (stable sort) + return-tag analysis",
)

chk(
    "C08",
    "Partial: numeral/text fidelity is serde_json's and is not decided. Decided as tables from MIR provenance: the "
    "Deserialize visitor (11 rows incl. exact cast-free integer entry, arrival-order arrays, last-duplicate-wins maps), "
    "Serialize for Variable (7 arms), TryFrom<Value> / TryFrom<&Value> (2 x 6 rows + convert_map), absence of lossy numeric "
    "casts in all bridge bodies, the identity query / search input path, Display = serde_json::to_string, and the manifest "
    "(no arbitrary_precision, serde rc).",
    "Trusted: serde_json's parser and printer (integer exactness, documented float accuracy, escapes).",
    "table extraction by provenance patterns + cast inventory + manifest reader",
)
chk(
    "C14",
    "Partial: decided as finite tables from MIR provenance — every method of variable::Serializer (28 rows) and of its compound "
    "states (15 rows) builds serde_json's value::Serializer image; the Variable deserializer's case table (deserialize_any per "
    "kind, option, enum, newtype_struct, the four VariantAccess methods, element/entry access) matches serde_json's Value "
    "deserializer incl. errors on kind mismatch; sequence completeness (Ok only after the exhaustion test); search input goes "
    "through this bridge. Not decided: that serde_json itself encodes each Rust shape as tabulated (trusted reference).",
    "Trusted: serde_json's documented Value (de)serializer behaviour; excluded shapes (non-string keys, 128-bit integers).",
    "table extraction by provenance patterns + dominance (completeness test) over rustc_private facts",
)

chk(
    "C18",
    "Partial: decided from the CLI's MIR are delegation without transformation (expression text -> compile, input text -> "
    "from_json -> search -> show_result with the --unquoted flag), the two output forms and their selecting condition, the "
    "trailing newline, --ast (prints, exits 0, never reads input), the failure discipline (every non-zero exit follows a "
    "stderr diagnostic, is reached only on an Err edge / in a map_err closure, and cannot be preceded by a stdout write; exit 0 "
    "only for --ast) and a panic-site inventory of the CLI with discharge rules (diverging map_err closures, guarded unwrap, "
    "clap required/conflicts rows). Not decided: the exact bytes printed and clap's own parsing.",
    "Trusted: clap 2's required/conflicts semantics; std map_err/map closure discipline; stdout/stderr writes succeed.",
    "provenance + dominance + reachability (stdout-before-exit) + panic-site inventory over the CLI's rustc_private facts",
)

for pid in [f"C{n:02d}" for n in range(1, 19)]:
    if pid not in CHECKS and pid not in NOT_APPLICABLE:
        na(pid, "check not implemented yet in this revision of /verif (work in progress; see DESIGN.md §3)")

na("C09", "value of a string-decoding function over all character sequences; no structural necessary condition "
          "beyond those already decided under C03/C01 (DESIGN.md §3/C09)") if "C09" not in CHECKS else None


def main():
    checks = []
    for pid in sorted(CHECKS):
        cat, text, note, tech = CHECKS[pid]
        checks.append(
            {
                "property_id": pid,
                "quick_cmd": f"./verif check {pid} --tier quick",
                "thorough_cmd": f"./verif check {pid} --tier thorough",
                "evidence_file": f"/verif/evidence/{pid}.json",
                "replay_cmd_template": "./verif explain {path}",
                "engine": "mirfacts+rules",
                "level_claimed": {"category": cat, "text": text, "design_ref": f"DESIGN.md §3/{pid}"},
                "level_note": note,
                "technique": tech,
            }
        )
    man = {
        "version": 1,
        "setup_cmd": "./verif setup",
        "hooks": {
            "guard": "jmespath_rs_verif",
            "enable": "no hooks: the checks read /repo's sources through a rustc driver and never build /repo with a guard",
            "baseline_off_cmd": "cd /repo/jmespath && cargo test --workspace --no-fail-fast --offline",
            "source_commits": [],
            "add_only": True,
        },
        "engines": [
            {
                "name": "mirfacts",
                "path": "/verif/mirfacts",
                "serves_properties": sorted(CHECKS),
                "kind_free_text": "rustc_private driver (nightly) dumping MIR CFGs with resolved callees, ADT/impl/static tables",
            },
            {
                "name": "rules",
                "path": "/verif/vlib",
                "serves_properties": sorted(CHECKS),
                "kind_free_text": "Python rule library: call graph, dominance, provenance, tag/unit/finiteness qualifiers, table extraction",
            },
        ],
        "checks": checks,
        "not_applicable": [
            {"property_id": pid, "reason": NOT_APPLICABLE[pid]} for pid in sorted(NOT_APPLICABLE) if pid not in CHECKS
        ],
        "notes": "Technique family: static analysis only. See DESIGN.md.",
    }
    with open(os.path.join(VERIF, "MANIFEST.json"), "w") as fh:
        json.dump(man, fh, indent=1)
        fh.write("\n")


if __name__ == "__main__":
    main()
