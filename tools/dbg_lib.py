"""Debug helper: `from tools.dbg_lib import load; lib = load()` gives the normalised Facts of VERIF_REPO's library
(default config); load("jp") the CLI's."""
import os
import sys

sys.path.insert(0, os.path.dirname(os.path.dirname(os.path.abspath(__file__))))
from vlib import build  # noqa: E402
from vlib.facts import Facts  # noqa: E402


def load(crate="jmespath", cfg="default"):
    paths = build.extract([cfg], with_cli=(crate == "jp"))
    if isinstance(paths, tuple):
        paths = [p for p in paths if isinstance(p, dict)][0]
    return Facts(paths[cfg][crate], normalise=True)
