#!/bin/bash
# usage: dbg_tree.sh <patch.diff>   — (re)create the scratch worktree /tmp/vdbg with the patch applied; use VERIF_REPO=/tmp/vdbg
git -C /repo worktree remove --force /tmp/vdbg >/dev/null 2>&1; rm -rf /tmp/vdbg
git -C /repo worktree add --detach /tmp/vdbg HEAD -q && git -C /tmp/vdbg apply "$(readlink -f "$1")" && echo "VERIF_REPO=/tmp/vdbg ready"
