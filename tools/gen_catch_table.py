#!/usr/bin/env python3
"""Regenerate the seeded-change table of DESIGN.md (between the SEED-TABLE markers) from seeded/*/meta.json."""
import glob
import json
import os
import re

VERIF = os.path.dirname(os.path.dirname(os.path.abspath(__file__)))


def main():
    rows = ["| seed | change (author's heading) | needs to manifest | caught by (quick checks that exit 1) | first rule key of the own-property check |",
            "|---|---|---|---|---|"]
    for d in sorted(glob.glob(os.path.join(VERIF, "seeded", "C*-*"))):
        m = json.load(open(os.path.join(d, "meta.json")))
        own = m["property"]
        caught = m.get("caught_by", {})
        first = ""
        if own in caught and caught[own]:
            k = re.search(r"key=(.*)$", caught[own][0])
            first = k.group(1).strip() if k else ""
        change = re.sub(r"^Change \d+\s*[-—–]+\s*", "", m.get("change", "")).replace("|", "/")[:90]
        needs = m.get("needs_to_manifest", "").replace("|", "/")
        needs = needs[:150] + ("…" if len(needs) > 150 else "")
        names = ", ".join(f"**{p}**" if p == own else p for p in sorted(caught)) or "— none —"
        rows.append(f"| {m['seed']} | {change} | {needs} | {names} | `{first[:80]}` |")
    p = os.path.join(VERIF, "DESIGN.md")
    s = open(p).read()
    s = re.sub(r"<!-- SEED-TABLE-BEGIN -->.*?<!-- SEED-TABLE-END -->",
               lambda _: "<!-- SEED-TABLE-BEGIN -->\n" + "\n".join(rows) + "\n<!-- SEED-TABLE-END -->", s, flags=re.S)
    open(p, "w").write(s)
    print(len(rows) - 2, "seeds tabulated")


if __name__ == "__main__":
    main()
